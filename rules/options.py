"""One set of markdown options (shared by C10 / C09 / C06): the refactoring actions render with `ActionContext::markdown_options()` of the server, formatting renders with the graph's own copy;
both must be the configured value.

  * `Server::new` hands `Database::new` a *copy* of `config.configuration.markdown` (clone, nothing else) and keeps `config.configuration` itself, unmodified, in `Server.configuration`:
    no `mem::take` / `mem::replace` / `mem::swap`, no `&mut` borrow of, or assignment into, the configuration on the way;
  * `<&Server as ActionContext>::markdown_options` returns `&self.configuration.markdown`, `<&Graph as GraphContext>::markdown_options` returns `&self.markdown_options`.
Otherwise an action re-renders a note with defaults (`refs_extension` lost on every block reference of the note) while formatting keeps the configured form."""
from vlib import factbase as fb
from vlib import q
from .common import ctx, loc


def _rooted_in(c, e, names):
    """Is the place expression `e` rooted in a param / local whose provenance mentions one of `names` (field or param names)?"""
    pv = c.vprov(e)
    return any((a[0] in ("param", "field") and a[1] in names) for a in pv)


def rule_one_options(facts, rep, rid):
    f = facts.fn("router::server::Server::new")
    rep.saw_fn(f)
    c = ctx(f)
    key = f.def_ + "|configured-options-reach-both-printers"
    probs = []
    db = [x for x in fb.walk(f.body) if x.get("k") == "call" and (fb.callee(x) or "").endswith("Database::new")]
    lits = [x for x in fb.walk(f.body) if x.get("k") == "struct" and fb.norm(x.get("def", "")).endswith("server::Server")]
    if len(db) != 1 or len(db[0].get("args", [])) < 3:
        probs.append("Database::new(state, sequential, options) not found")
    else:
        pv = c.vprov(db[0]["args"][2])
        calls = sorted(set(fb.last_seg(a[1]) for a in pv if a[0] == "call"))
        if not (("field", "markdown") in pv and (("field", "configuration") in pv or any(a[0] == "param" for a in pv))):
            probs.append("the options given to Database::new do not come from config.configuration.markdown (%s)" % sorted(pv)[:5])
        bad = [x for x in calls if x in ("take", "replace", "swap", "default", "new", "take_mut", "unwrap_or_default")]
        if bad:
            probs.append("the options given to Database::new are moved out with `%s`: what stays behind in the server's configuration is the default value" % "`, `".join(bad))
    if len(lits) != 1:
        probs.append("Server literal not found")
    else:
        cf = [fl for fl in lits[0].get("fields", []) if fl.get("name") == "configuration"]
        if not cf:
            probs.append("Server.configuration is not set from the given configuration")
        else:
            pv = c.vprov(cf[0]["e"] if "e" in cf[0] else cf[0].get("v"))
            if not (("field", "configuration") in pv or any(a[0] == "param" for a in pv)) or any(a[0] == "call" and fb.last_seg(a[1]) in ("default", "new", "take", "replace") for a in pv):
                probs.append("Server.configuration is not the given configuration (%s)" % sorted(pv)[:5])
    # nothing mutates the configuration between entry and the literal
    for x in fb.walk(f.body):
        if x.get("from_expansion") or x.get("m"):
            continue
        if x.get("k") == "addrof" and x.get("mut") and _rooted_in(c, x["e"], ("configuration", "markdown")):
            probs.append("`%s`: the configuration is borrowed mutably while the server is built" % fb.show(x)[:50])
        if x.get("k") in ("assign", "assignop") and _rooted_in(c, x["l"], ("configuration", "markdown")):
            probs.append("`%s`: the configuration is modified while the server is built" % fb.show(x)[:50])
    if probs:
        rep.violation(rid, key, "; ".join(probs), f.loc)
    else:
        rep.ok(rid, key, "Database::new(.., config.configuration.markdown.clone()); Server { configuration: config.configuration, .. }", f.loc)
    for suffix, fields in (("ActionContext>::markdown_options", ("configuration", "markdown")),
                           ("GraphContext>::markdown_options", ("markdown_options",))):
        g = facts.fn(suffix)
        rep.saw_fn(g)
        cg = ctx(g)
        pv = cg.vprov(g.body)
        key = g.def_ + "|returns-the-configured-options"
        if all(("field", n) in pv for n in fields) and not any(a[0] in ("call", "lit", "struct") for a in pv):
            rep.ok(rid, key, "&self.%s" % ".".join(fields), g.loc)
        else:
            rep.violation(rid, key, "markdown_options() no longer returns &self.%s: %s" % (".".join(fields), sorted(pv)[:6]), g.loc)
